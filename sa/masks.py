"""E6 - boolean-mask algebra: partition (MP) and guarded-division / gather agreement (GD).

Works on expressions already inlined by sa.expr (single-assignment form over parameters and opaque calls).
A mask formula is built from comparison atoms with ~ & | * and shape-only wrappers.  Groups:
  store group   stores  T[m_i] = rhs_i  into one zero-initialised T
  sum group     a maximal +-chain all of whose non-zero terms carry exactly one mask factor
Decision procedure: truth table over the atoms (each distinct comparison is an independent boolean).
"""
from __future__ import annotations
import ast, itertools
from .core import dotted, src
from .expr import dump, Inliner

WRAP_METHODS = {'unsqueeze', 'squeeze', 'type_as', 'float', 'double', 'bool', 'to', 'type', 'expand', 'expand_as', 'view',
                'reshape', 'contiguous', 'clone', 'detach', 'int', 'long', 'half', 'repeat'}
STRIP_METHODS = WRAP_METHODS | {'abs', 'sqrt', 'sin', 'tan', 'square', 'sinh', 'tanh', 'asin', 'atan', 'expm1', 'log1p'}
STRIP_FUNCS = {'torch.abs', 'torch.sqrt', 'torch.sin', 'torch.tan', 'torch.square', 'abs'}
ZERO_CTORS = {'torch.zeros_like', 'torch.zeros'}


# ------------------------------------------------------------------ formulas

def formula(e):
    """-> nested tuple formula or None if e is not a mask expression"""
    if isinstance(e, ast.Compare) and len(e.ops) == 1:
        l, r, op = e.left, e.comparators[0], e.ops[0]
        if isinstance(op, ast.Gt):
            return ('atom', ('gt', dump(l), dump(r)))
        if isinstance(op, ast.Lt):
            return ('atom', ('gt', dump(r), dump(l)))
        if isinstance(op, ast.GtE):
            return ('not', ('atom', ('gt', dump(r), dump(l))))
        if isinstance(op, ast.LtE):
            return ('not', ('atom', ('gt', dump(l), dump(r))))
        if isinstance(op, ast.Eq):
            return ('atom', ('eq',) + tuple(sorted((dump(l), dump(r)))))
        if isinstance(op, ast.NotEq):
            return ('not', ('atom', ('eq',) + tuple(sorted((dump(l), dump(r))))))
        return None
    if isinstance(e, ast.UnaryOp) and isinstance(e.op, (ast.Invert, ast.Not)):
        f = formula(e.operand)
        return None if f is None else ('not', f)
    if isinstance(e, ast.BinOp) and isinstance(e.op, (ast.BitAnd, ast.BitOr, ast.Mult)):
        a, b = formula(e.left), formula(e.right)
        if a is None or b is None:
            return None
        return ('or' if isinstance(e.op, ast.BitOr) else 'and', a, b)
    if isinstance(e, ast.BoolOp):
        fs = [formula(v) for v in e.values]
        if any(f is None for f in fs):
            return None
        out = fs[0]
        for f in fs[1:]:
            out = ('and' if isinstance(e.op, ast.And) else 'or', out, f)
        return out
    if isinstance(e, ast.Call):
        if isinstance(e.func, ast.Attribute) and e.func.attr in WRAP_METHODS and not (dotted(e.func) or '').startswith('torch.'):
            return formula(e.func.value)
        d = dotted(e.func)
        if d in ('torch.logical_not',) and e.args:
            f = formula(e.args[0])
            return None if f is None else ('not', f)
        if d in ('torch.logical_and', 'torch.logical_or') and len(e.args) == 2:
            a, b = formula(e.args[0]), formula(e.args[1])
            if a is None or b is None:
                return None
            return ('and' if d.endswith('and') else 'or', a, b)
    return None


def atoms_of(f, out=None):
    out = out if out is not None else []
    if f[0] == 'atom':
        if f[1] not in out:
            out.append(f[1])
    else:
        for g in f[1:]:
            atoms_of(g, out)
    return out


def evalf(f, asg):
    if f[0] == 'atom':
        return asg[f[1]]
    if f[0] == 'not':
        return not evalf(f[1], asg)
    if f[0] == 'and':
        return evalf(f[1], asg) and evalf(f[2], asg)
    if f[0] == 'or':
        return evalf(f[1], asg) or evalf(f[2], asg)
    raise ValueError(f)


def assignments(atoms):
    for vals in itertools.product((False, True), repeat=len(atoms)):
        yield dict(zip(atoms, vals))


def partition_defect(fs):
    """None if the formulas are pairwise disjoint and jointly exhaustive; else a description"""
    atoms = []
    for f in fs:
        atoms_of(f, atoms)
    if len(atoms) > 10:
        return None
    for asg in assignments(atoms):
        n = sum(1 for f in fs if evalf(f, asg))
        if n != 1:
            desc = ', '.join('%s=%s' % (_atom_str(a), v) for a, v in asg.items())
            return ('no branch' if n == 0 else '%d branches' % n) + ' selected when ' + desc
    return None


def implies(f, g, extra_atoms=()):
    atoms = list(extra_atoms)
    atoms_of(f, atoms)
    atoms_of(g, atoms)
    return all((not evalf(f, a)) or evalf(g, a) for a in assignments(atoms))


def equivalent(f, g):
    atoms = []
    atoms_of(f, atoms)
    atoms_of(g, atoms)
    return all(evalf(f, a) == evalf(g, a) for a in assignments(atoms))


def _atom_str(a):
    def short(d):
        try:
            return d if len(d) < 40 else d[:37] + '...'
        except Exception:
            return str(d)
    return '%s(%s,%s)' % (a[0], short(a[1]), short(a[2]))


# ------------------------------------------------------------------ roots of zero

def strip(e):
    while True:
        if isinstance(e, ast.Subscript) and formula(e.slice) is not None:
            e = e.value        # mask gather x[mask]; component slices x[..., 3:] are kept
        elif isinstance(e, ast.Call) and dotted(e.func) in STRIP_FUNCS and e.args:
            e = e.args[0]
        elif isinstance(e, ast.Call) and isinstance(e.func, ast.Attribute) and e.func.attr in STRIP_METHODS \
                and not (dotted(e.func) or '').startswith(('torch.', 'math.')):
            e = e.func.value
        elif isinstance(e, ast.UnaryOp) and isinstance(e.op, (ast.USub, ast.UAdd)):
            e = e.operand
        else:
            return e


def zero_roots(e):
    """canonical dumps of sub-expressions whose vanishing makes e vanish"""
    e = strip(e)
    if isinstance(e, ast.Constant):
        return set()
    if isinstance(e, ast.BinOp):
        if isinstance(e.op, ast.Mult):
            return zero_roots(e.left) | zero_roots(e.right)
        if isinstance(e.op, ast.Pow):
            return zero_roots(e.left)
        if isinstance(e.op, ast.Div):
            return zero_roots(e.left)
        return set()
    return {dump(e)}


def is_eps_like(e):
    if isinstance(e, ast.Attribute) and e.attr in ('eps', 'tiny'):
        return True
    if isinstance(e, ast.Name) and 'eps' in e.id.lower():
        return True
    if isinstance(e, ast.Constant) and isinstance(e.value, float) and 0 <= e.value < 1e-3:
        return True
    return False


def guard_atoms(exprs):
    """magnitude guards  |X| > eps  among the comparison atoms occurring in exprs: root dump -> atom formula"""
    out = {}
    for e in exprs:
        for n in ast.walk(e):
            if isinstance(n, ast.Compare) and len(n.ops) == 1:
                l, r, op = n.left, n.comparators[0], n.ops[0]
                big = None
                if isinstance(op, (ast.Gt, ast.GtE)) and is_eps_like(r):
                    big = l
                elif isinstance(op, (ast.Lt, ast.LtE)) and is_eps_like(l):
                    big = r
                f = None
                if big is not None:
                    f = formula(n)
                else:
                    # X < eps / X <= eps : the guard is its negation
                    if isinstance(op, (ast.Lt, ast.LtE)) and is_eps_like(r):
                        big, f = l, ('not', formula(n))
                    elif isinstance(op, (ast.Gt, ast.GtE)) and is_eps_like(l):
                        big, f = r, ('not', formula(n))
                if big is not None and f is not None:
                    for root in zero_roots(big):
                        out.setdefault(root, f)
    return out


def walk_outside_upd(e):
    """ast.walk that does not descend into $upd(...) nodes (values of other masked tensors, checked on their own)"""
    stack = [e]
    while stack:
        n = stack.pop()
        yield n
        if isinstance(n, ast.Call) and dotted(n.func) == '$upd':
            continue
        stack.extend(ast.iter_child_nodes(n))


def denominators(e):
    out = []
    for n in walk_outside_upd(e):
        if isinstance(n, ast.BinOp) and isinstance(n.op, ast.Div):
            out.append(n.right)
        elif isinstance(n, ast.BinOp) and isinstance(n.op, ast.Pow) and isinstance(n.right, (ast.UnaryOp, ast.Constant)):
            k = n.right.operand.value if isinstance(n.right, ast.UnaryOp) and isinstance(n.right.op, ast.USub) and isinstance(n.right.operand, ast.Constant) else None
            if k is not None:
                out.append(n.left)
        elif isinstance(n, ast.Call) and isinstance(n.func, ast.Attribute) and n.func.attr in ('reciprocal', 'rsqrt'):
            out.append(n.func.value)
        elif isinstance(n, ast.Call) and dotted(n.func) in ('torch.reciprocal', 'torch.rsqrt', 'torch.div', 'torch.true_divide') and n.args:
            out.append(n.args[-1])
    return out


# ------------------------------------------------------------------ groups

class Group:
    def __init__(self, kind, target, members, node=None):
        self.kind, self.target, self.members, self.node = kind, target, members, node
        # members: list of (formula, rhs expr, mask expr, stmt-or-None)

    def masks(self):
        return [m[0] for m in self.members]


def _zero_init(e):
    while isinstance(e, ast.Call) and dotted(e.func) == '$upd':
        e = e.args[0]
    if isinstance(e, ast.Call) and dotted(e.func) in ZERO_CTORS:
        return True
    if isinstance(e, ast.Call) and isinstance(e.func, ast.Attribute) and e.func.attr in ('new_zeros', 'zero_'):
        return True
    return False


def _factors(e):
    """multiplicative factors; ('recip', x) for denominators"""
    if isinstance(e, ast.BinOp) and isinstance(e.op, ast.Mult):
        return _factors(e.left) + _factors(e.right)
    if isinstance(e, ast.BinOp) and isinstance(e.op, ast.Div):
        return _factors(e.left) + [('recip', e.right)]
    if isinstance(e, ast.UnaryOp) and isinstance(e.op, (ast.USub, ast.UAdd)):
        return _factors(e.operand)
    return [e]


def _terms(e):
    if isinstance(e, ast.BinOp) and isinstance(e.op, ast.Add):
        return _terms(e.left) + _terms(e.right)
    return [e]


def _is_zero(e):
    if isinstance(e, ast.Constant) and e.value in (0, 0.0):
        return True
    return isinstance(e, ast.Call) and dotted(e.func) in ZERO_CTORS


def sum_groups(e):
    """maximal +-chains inside e whose non-zero terms each carry >= 1 mask factor"""
    out = []
    seen = set()

    def visit(n, parent_is_add):
        if isinstance(n, ast.BinOp) and isinstance(n.op, ast.Add) and not parent_is_add:
            terms = [t for t in _terms(n) if not _is_zero(t)]
            members = []
            ok = len(terms) >= 2
            for t in terms:
                fs = _factors(t)
                mf = [(formula(x), x) for x in fs if not (isinstance(x, tuple)) and formula(x) is not None]
                if not mf:
                    ok = False
                    break
                f = mf[0][0]
                for g, _ in mf[1:]:
                    f = ('and', f, g)
                rest = [x for x in fs if isinstance(x, tuple) or formula(x) is None]
                members.append((f, rest, mf[0][1], None))
            if ok:
                key = tuple(sorted(repr(m[0]) for m in members)) + (dump(n)[:200],)
                if key not in seen:
                    seen.add(key)
                    out.append(Group('sum', None, members, n))
        for c in ast.iter_child_nodes(n):
            visit(c, isinstance(n, ast.BinOp) and isinstance(n.op, ast.Add))
    visit(e, False)
    return out


def store_groups(inl: Inliner):
    """stores T[mask] = rhs grouped by T (only zero-initialised targets form a partition obligation)"""
    by = {}
    first_val = {}
    for bk, idx, val, st in inl.stores:
        if bk is None:
            continue
        f = formula(idx)
        if f is None:
            continue
        by.setdefault(bk, []).append((f, val, idx, st))
    out = []
    for bk, members in by.items():
        # value of the target before its first masked store
        init = None
        for st, env in inl.log:
            if st is members[0][3]:
                init = env.get(bk)
                break
        zero = init is not None and _zero_init(init)
        out.append((Group('store', bk, members), zero))
    return out


def where_groups(fnode, inl):
    """the dense spelling of a masked fill: X = torch.where(M0, E0, zeros); X = torch.where(M1, E1, X); ...  Each chain is a group with the partition obligation of a
    zero-initialised store target (kind 'where'; its operands are evaluated densely by construction, so the gather clause does not apply).  A chain that starts from
    a non-zero constant C (`torch.where(M0, E0, ones)`) has C as the member of the complement of M0."""
    from .expr import subst
    envs = {id(st): env for st, env in inl.log}
    chains = {}
    done = []
    for st in fnode.body:
        if not (isinstance(st, ast.Assign) and len(st.targets) == 1 and isinstance(st.targets[0], ast.Name)):
            continue
        v = st.value
        x = st.targets[0].id
        if not (isinstance(v, ast.Call) and dotted(v.func) == 'torch.where' and len(v.args) == 3):
            if x in chains:
                done.append((x, chains.pop(x)))           # the filled tensor is re-shaped / used from here on: the chain is complete
            continue
        env = envs.get(id(st), {})
        m = subst(v.args[0], env)
        f = formula(m)
        if f is None:
            chains.pop(x, None)
            continue
        d = v.args[2]
        if isinstance(d, ast.Name) and d.id == x and x in chains:
            chains[x][0].append((f, v.args[1], m, st))
            continue
        dd = subst(d, env)
        while isinstance(dd, ast.BinOp) and isinstance(dd.op, (ast.Mult, ast.Div)) and isinstance(dd.left, ast.Constant):
            dd = dd.right
        if _is_zero(dd):
            chains[x] = ([(f, v.args[1], m, st)], st)
        elif isinstance(dd, ast.Constant) or (isinstance(dd, ast.Call) and (dotted(dd.func) or '').split('.')[-1] in ('ones_like', 'ones', 'full_like', 'full')):
            chains[x] = ([(f, v.args[1], m, st), (('not', f), d, m, st)], st)
        else:
            chains.pop(x, None)
    out = []
    for x, (members, st) in done + list(chains.items()):
        g = Group('where', x, members, st)
        g.zero = True
        out.append(g)
    return out


def analyse_function(fnode):
    """-> (groups, guards) for a straight-line function"""
    from .expr import inline_straight, returns_of
    inl = inline_straight(fnode)
    groups = []
    for g, zero in store_groups(inl):
        g.zero = zero
        groups.append(g)
    groups.extend(where_groups(fnode, inl))
    exprs = [v for k, v in inl.env.items() if isinstance(v, ast.AST)]
    for r in returns_of(fnode):
        if r.value is not None:
            exprs.append(inline_straight(fnode, upto=r).value(r.value))
    seen = set()
    for e in exprs:
        for g in sum_groups(e):
            k = (tuple(sorted(repr(m[0]) for m in g.members)), tuple(dump(x) if not isinstance(x, tuple) else 'r' + dump(x[1])
                                                                    for m in g.members for x in m[1])[:6])
            if k in seen:
                continue
            seen.add(k)
            g.zero = True
            groups.append(g)
    guards = guard_atoms(exprs + [m[2] for g in groups for m in g.members])
    return groups, guards, inl


def gd_defects(group, guards, exceptions=()):
    """guarded-division and gather-agreement defects of one group -> list of (member index, message)"""
    out = []
    for i, (f, rhs, mexpr, st) in enumerate(group.members):
        rhs_exprs = rhs if isinstance(rhs, list) else [rhs]
        for r in rhs_exprs:
            r_e = r[1] if isinstance(r, tuple) else r
            if group.kind == 'store':
                for n in walk_outside_upd(r_e):
                    if isinstance(n, ast.Subscript):
                        g = formula(n.slice)
                        if g is not None and not equivalent(f, g):
                            out.append((i, 'operand `%s` is gathered with a different mask than the store' % src(n)[:60], None))
    return out


# ------------------------------------------------------------------ context-propagating analysis of one expression

SIGN_FUNCS = {'torch.sign', 'torch.sgn'}
TRANSPARENT_FUNCS = {'torch.nan_to_num'}
NORM_FUNCS = {'torch.norm', 'torch.linalg.norm', 'torch.linalg.vector_norm'}


def zero_root_exprs(e):
    e = strip(e)
    if isinstance(e, ast.Constant):
        return []
    if isinstance(e, ast.BinOp):
        if isinstance(e.op, ast.Mult):
            return zero_root_exprs(e.left) + zero_root_exprs(e.right)
        if isinstance(e.op, (ast.Pow, ast.Div)):
            return zero_root_exprs(e.left)
        return []
    return [e]


def is_norm_root(e):
    e = strip(e)
    if isinstance(e, ast.Call):
        if dotted(e.func) in NORM_FUNCS:
            return True
        if isinstance(e.func, ast.Attribute) and e.func.attr == 'norm' and not (dotted(e.func) or '').startswith('torch.'):
            return True
    return False


def vanish_roots(e):
    """dumps of quantities whose exact vanishing makes e vanish; sign(x) vanishes with x, pm(x) never does"""
    while True:
        if isinstance(e, ast.Call) and dotted(e.func) in TRANSPARENT_FUNCS and e.args:
            e = e.args[0]
        elif isinstance(e, ast.Call) and isinstance(e.func, ast.Attribute) and e.func.attr == 'nan_to_num' \
                and not (dotted(e.func) or '').startswith('torch.'):
            e = e.func.value
        else:
            break
    if isinstance(e, ast.Call) and dotted(e.func) in SIGN_FUNCS and e.args:
        return vanish_roots(e.args[0])
    if isinstance(e, ast.Call) and isinstance(e.func, ast.Attribute) and e.func.attr in ('sign', 'sgn') and not (dotted(e.func) or '').startswith('torch.'):
        return vanish_roots(e.func.value)
    if isinstance(e, ast.Call) and dotted(e.func) == 'pm':
        return set()
    if isinstance(e, ast.Constant):
        return set()
    if isinstance(e, ast.UnaryOp) and isinstance(e.op, (ast.USub, ast.UAdd)):
        return vanish_roots(e.operand)
    if isinstance(e, ast.BinOp):
        if isinstance(e.op, ast.Mult):
            return vanish_roots(e.left) | vanish_roots(e.right)
        if isinstance(e.op, (ast.Div, ast.Pow)):
            return vanish_roots(e.left)
        return set()
    if isinstance(e, ast.Subscript) and formula(e.slice) is not None:
        return vanish_roots(e.value)
    s = strip(e)
    if s is not e:
        return vanish_roots(s)
    return {dump(e)}


def _and(a, b):
    if a is None:
        return b
    if b is None:
        return a
    return ('and', a, b)


def context_defects(expr, guards):
    """walk expr carrying the conjunction of the masks under which each sub-expression is selected.
    -> list of (kind, node, message, root dump)   kind: 'div' | 'vanish' """
    out = []

    def check_div(d, ctx, node, unsan=False):
        for r in zero_root_exprs(d):
            key = dump(r)
            g = guards.get(key)
            if unsan and g is not None and ctx is not None and implies(ctx, g):
                # selected by MULTIPLYING with the mask: the quotient is evaluated for every element, and (False mask) * (0 / 0) = NaN, not 0
                out.append(('nansan', node, 'the quotient by `%s` is selected by multiplying with its mask, not by gathering under it, and does not pass through '
                            'nan_to_num first: where the guard fails the unselected 0/0 (NaN) or x/0 (Inf) survives the multiplication by False' % src(strip(d))[:50], key, ctx))
            if g is None:
                if is_norm_root(r):
                    out.append(('div', node, 'division by `%s`, which is exactly zero at the identity / zero vector, is not selected by any '
                                'magnitude guard' % src(strip(d))[:50], key, ctx))
                continue
            if ctx is None or not implies(ctx, g):
                out.append(('div', node, 'division by `%s` is not confined to the branch where its magnitude guard holds' % src(strip(d))[:50], key, ctx))

    def check_vanish(val, ctx, node):
        if ctx is None:
            return
        roots = vanish_roots(val)
        for key, g in guards.items():
            if key in roots and implies(ctx, ('not', g)):
                out.append(('vanish', node, 'the branch selected where `%s` is (near) zero is multiplied by a factor that vanishes exactly at '
                            'zero (sign(0) = 0): the branch value collapses at the very point it was written for' % _short(key), key, ctx))

    def walk(e, ctx, unsan=False, outer=False):
        if isinstance(e, ast.Call):
            d = dotted(e.func)
            if d in TRANSPARENT_FUNCS or (isinstance(e.func, ast.Attribute) and e.func.attr == 'nan_to_num'):
                # everything below is sanitised AFTER it was computed: nan_to_num(mask * q) and mask * nan_to_num(q) are both free of NaN
                for c in ast.iter_child_nodes(e):
                    if isinstance(c, ast.expr):
                        walk(c, ctx, False, True)
                return
            if d == 'torch.where' and len(e.args) == 3:
                f = formula(e.args[0])
                walk(e.args[0], ctx)
                if f is not None:
                    ca, cb = _and(ctx, f), _and(ctx, ('not', f))
                    check_vanish(e.args[1], ca, e)
                    check_vanish(e.args[2], cb, e)
                    walk(e.args[1], ca)
                    walk(e.args[2], cb)
                    return
            if d == '$upd' and len(e.args) == 3:
                walk(e.args[0], ctx)
                m = e.args[1].slice if isinstance(e.args[1], ast.Subscript) else None
                f = formula(m) if m is not None else None
                c2 = _and(ctx, f) if f is not None else ctx
                if f is not None:
                    check_vanish(e.args[2], c2, e)
                walk(e.args[2], c2)
                return
            if d in ('torch.div', 'torch.true_divide') and len(e.args) == 2:
                check_div(e.args[1], ctx, e, unsan)
            if isinstance(e.func, ast.Attribute) and e.func.attr in ('reciprocal', 'rsqrt') and not (d or '').startswith('torch.'):
                check_div(e.func.value, ctx, e, unsan)
        if isinstance(e, ast.BinOp) and isinstance(e.op, (ast.Mult, ast.Div)):
            fs = _factors(e)
            mfs = [formula(x) for x in fs if not isinstance(x, tuple) and formula(x) is not None]
            c2 = ctx
            for f in mfs:
                c2 = _and(c2, f)
            rest = [x for x in fs if isinstance(x, tuple) or formula(x) is None]
            if mfs:
                prod = None
                for x in rest:
                    if not isinstance(x, tuple):
                        prod = x if prod is None else ast.BinOp(prod, ast.Mult(), x)
                if prod is not None:
                    check_vanish(prod, c2, e)
            u2 = (unsan or bool(mfs)) and not outer
            for x in rest:
                if isinstance(x, tuple):
                    check_div(x[1], c2, e, u2)
                    walk(x[1], c2, u2, outer)
                else:
                    walk(x, c2, u2, outer)
            for x in fs:
                if not isinstance(x, tuple) and formula(x) is not None:
                    walk_atoms(x, ctx)
            return
        if isinstance(e, ast.BinOp) and isinstance(e.op, (ast.Add, ast.Sub)) and outer:
            # nan_to_num applied to a SUM repairs a NaN of a masked term only if every term of the sum is such a masked coefficient: an unmasked term
            # (0.5 * Tau + coef * (...)) is wiped out together with the NaN it is added to
            terms = []
            def flat(x):
                if isinstance(x, ast.BinOp) and isinstance(x.op, (ast.Add, ast.Sub)):
                    flat(x.left); flat(x.right)
                else:
                    terms.append(x)
            flat(e)
            def masked(t):
                return any(not isinstance(x, tuple) and formula(x) is not None for x in _factors(t)) and len([x for x in _factors(t) if not isinstance(x, tuple) and formula(x) is None]) <= 1
            keep = all(_is_zero(t) or masked(t) for t in terms)
            for t in terms:
                walk(t, ctx, unsan, keep)
            return
        if isinstance(e, ast.BinOp) and isinstance(e.op, ast.Pow):
            k = e.right
            if isinstance(k, ast.UnaryOp) and isinstance(k.op, ast.USub) and isinstance(k.operand, ast.Constant):
                check_div(e.left, ctx, e, unsan)
        if isinstance(e, ast.Subscript):
            f = formula(e.slice)
            if f is not None:
                walk(e.value, _and(ctx, f), False)        # a gather evaluates its operand on the selected elements only
                return
        for c in ast.iter_child_nodes(e):
            if isinstance(c, ast.expr):
                walk(c, ctx, unsan, outer)

    def walk_atoms(m, ctx):
        # comparison operands are evaluated everywhere (they define the masks); they contain no guarded divisions by construction
        for n in ast.walk(m):
            if isinstance(n, ast.Compare):
                walk(n.left, ctx)

    walk(expr, None)
    # de-duplicate
    seen, res = set(), []
    for k, node, msg, root, ctx in out:
        key = (k, msg, root)
        if key not in seen:
            seen.add(key)
            res.append((k, node, msg, root, ctx))
    return res


def _short(d):
    return d if len(d) < 60 else d[:57] + '...'


# ---------------------------------------------------------------- SAFESUB: a sanitised copy reaches only the branch it was sanitised for

def sanitised_leaks(fnode):
    """[(subst stmt, name, where call, leaked name)]: `n = torch.where(M, x, <constant>)` replaces the items outside M by a harmless constant so that the closed form
    selected by M can be evaluated everywhere.  In the complementary branch of a later `torch.where(M, A, B)` (B; or A under ~M) the name n - and everything
    computed from it - IS that constant: a series in n written there is evaluated at the constant, not at the small value it was written for."""
    from .core import dotted, src

    def mask_of(e):
        """(name, positive?) of `M` / `~M` / `M.logical_not()`"""
        if isinstance(e, ast.Name):
            return e.id, True
        if isinstance(e, ast.UnaryOp) and isinstance(e.op, ast.Invert) and isinstance(e.operand, ast.Name):
            return e.operand.id, False
        if isinstance(e, ast.Call) and isinstance(e.func, ast.Attribute) and e.func.attr == 'logical_not' and isinstance(e.func.value, ast.Name):
            return e.func.value.id, False
        return None

    def is_const(e):
        if isinstance(e, ast.Constant):
            return True
        if isinstance(e, ast.Call) and (dotted(e.func) or '').split('.')[-1] in ('ones_like', 'zeros_like', 'full_like', 'tensor', 'ones', 'zeros', 'full'):
            return True
        return False
    body = [n for n in ast.walk(fnode) if isinstance(n, ast.Assign)]
    body.sort(key=lambda n: (n.lineno, n.col_offset))
    out = []
    for st in body:
        v = st.value
        if not (isinstance(v, ast.Call) and dotted(v.func) == 'torch.where' and len(v.args) == 3 and len(st.targets) == 1 and isinstance(st.targets[0], ast.Name)):
            continue
        m = mask_of(v.args[0])
        if m is None:
            continue
        keep, const = (v.args[1], v.args[2]) if m[1] else (v.args[2], v.args[1])
        if not is_const(const) or is_const(keep):
            continue
        n = st.targets[0].id
        derived = {n}
        for s2 in body:
            if s2.lineno <= st.lineno:
                continue
            tg = [t.id for t in ast.walk(s2.targets[0]) if isinstance(t, ast.Name)] if len(s2.targets) == 1 else []
            if isinstance(s2.targets[0], ast.Tuple) and isinstance(s2.value, ast.Tuple) and len(s2.targets[0].elts) == len(s2.value.elts):
                for t, vv in zip(s2.targets[0].elts, s2.value.elts):
                    if isinstance(t, ast.Name) and any(isinstance(x, ast.Name) and x.id in derived for x in ast.walk(vv)):
                        derived.add(t.id)
            elif any(isinstance(x, ast.Name) and x.id in derived for x in ast.walk(s2.value)):
                # the where that merges the branches again is not itself "derived" for the purpose of later wheres
                if not (isinstance(s2.value, ast.Call) and dotted(s2.value.func) == 'torch.where'):
                    derived.update(tg)
        for w in ast.walk(fnode):
            if isinstance(w, ast.Call) and dotted(w.func) == 'torch.where' and len(w.args) == 3 and w is not v and w.lineno > st.lineno:
                m2 = mask_of(w.args[0])
                if m2 is None or m2[0] != m[0]:
                    continue
                other = w.args[2] if m2[1] else w.args[1]
                leak = next((x.id for x in ast.walk(other) if isinstance(x, ast.Name) and x.id in derived), None)
                if leak:
                    out.append((st, n, w, leak))
    return out


def rule_safesub(repo, rid, modules):
    from .core import RuleResult, Finding, AnalysisError, src
    res = RuleResult(rid, 'a copy sanitised for one branch (`n = torch.where(M, x, constant)`) and everything computed from it is read only in the branch M selects: in '
                     'the complementary branch of a later torch.where on the same mask it is the constant, not the value', floor=1)
    k = 0
    for m in modules:
        for f in repo.functions_view(m):
            k += 1
            for st, n, w, leak in sanitised_leaks(f.node):
                res.inst({'function': f.fq, 'sanitised': n, 'leak': leak}, (f.fq, n, leak))
                res.add(Finding(rid, f, '`%s` replaces the items outside the mask by a constant; `%s` (computed from it) is then read in the complementary branch of `%s`: '
                                'there the series is evaluated at the constant instead of the small value' % (src(st)[:70], leak, src(w)[:60]), node=st,
                                construct='sanitised value in the other branch|' + leak))
    res.inst({'functions scanned': k}, 'scan')
    fx = [ast.parse(t).body[0] for t in (
        "def f(x):\n    i = x > 1e-6\n    x = torch.where(i, x, torch.ones_like(x))\n    x2 = x * x\n    return torch.where(i, torch.sin(x) / x, 1 - x2 / 6)\n",
        "def f(x):\n    i = x > 1e-6\n    x2 = x * x\n    xs = torch.where(i, x, torch.ones_like(x))\n    return torch.where(i, torch.sin(xs) / xs, 1 - x2 / 6)\n")]
    if [len(sanitised_leaks(x)) for x in fx] != [1, 0]:
        raise AnalysisError('%s: the sanitised-copy fixture is no longer recognised' % rid)
    return res
