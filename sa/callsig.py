"""Call-signature agreement between a caller and the callee it resolves to (functions, methods on self, constructors, autograd Function.apply).

  unknown keyword      the callee has no parameter of that name and no **kwargs            -> TypeError on a path the tests may never take
  too many positionals more positional arguments than the callee accepts (no *args)         -> TypeError
  missing argument     a parameter without default receives nothing                         -> TypeError
  swapped arguments    two positional arguments are plain names equal to two of the callee's parameter names, in exchanged positions
                       (call f(b, a) of def f(a, b)): the caller and the callee disagree about the order of the contract

Only calls that resolve to exactly one callee are judged.  Expected count on the tree: zero.
"""
import ast
from .core import RuleResult, Finding, AnalysisError, dotted, src, norm_construct, guarded
from . import paths


def judge(repo, f, call):
    tg, how = repo.resolve_call(f, call, by_name=False)
    tg = [t for t in (tg or []) if hasattr(t, 'node')]
    if len(tg) != 1 or how in ('none', 'byname'):
        return None, []
    g = tg[0]
    a = g.node.args
    pos = [x.arg for x in a.posonlyargs + a.args]
    skip = 0
    partial_kw = set()
    if how == 'ctor' and isinstance(call.func, ast.Name):
        # Name bound by functools.partial(Class, kw=...): the bound keywords count as given
        r = repo.resolve_expr(f, call.func)
        if r and r[0] == 'var' and isinstance(r[3], ast.Call):
            partial_kw = {k.arg for k in r[3].keywords if k.arg}
            if any(k.arg is None for k in r[3].keywords) or len(r[3].args) > 1:
                return g, []
    if how in ('self', 'cls', 'super', 'ctor'):
        skip = 0 if (g.is_static() and how != 'ctor') else 1
    elif how == 'apply':
        skip = 0 if g.is_static() else 1
    elif how == 'direct' and g.cls is not None and not g.is_static() and isinstance(call.func, ast.Attribute):
        # Class.method(obj, ...) : explicit receiver, nothing to skip; instance.method(...) resolved directly: skip self
        r = repo.resolve_expr(f, call.func.value)
        skip = 0 if (r and r[0] == 'class') else 1
        if g.is_classmethod():
            skip = 1
    params = pos[skip:]
    n_def = len(a.defaults)
    required = params[:len(params) - n_def] if n_def <= len(params) else []
    kwonly = [x.arg for x in a.kwonlyargs]
    kw_required = [x.arg for x, d in zip(a.kwonlyargs, a.kw_defaults) if d is None]
    problems = []
    if any(isinstance(x, ast.Starred) for x in call.args) or any(k.arg is None for k in call.keywords):
        return g, []
    if len(call.args) > len(params) and a.vararg is None:
        problems.append('passes %d positional arguments, `%s` takes %d' % (len(call.args), g.qual, len(params)))
    given = set(params[:len(call.args)]) | partial_kw
    for k in call.keywords:
        if k.arg not in params and k.arg not in kwonly and a.kwarg is None:
            problems.append('passes the keyword `%s`, which `%s` does not have' % (k.arg, g.qual))
        given.add(k.arg)
    for r_ in required + kw_required:
        if r_ not in given:
            problems.append('does not pass `%s`, which `%s` requires' % (r_, g.qual))
    names = [x.id if isinstance(x, ast.Name) else None for x in call.args]
    for i, ni in enumerate(names):
        for j, nj in enumerate(names):
            if i < j and ni and nj and ni != nj and i < len(params) and j < len(params) and ni == params[j] and nj == params[i]:
                problems.append('passes (`%s`, `%s`) in positions %d and %d where `%s` declares (`%s`, `%s`): the two arguments are exchanged'
                                % (ni, nj, i, j, g.qual, params[i], params[j]))
    return g, problems


@guarded
def rule_callsig(repo, rid, modules):
    res = RuleResult(rid, 'every call that resolves to one function of the package agrees with its signature: no unknown keyword, no surplus positional, no '
                     'missing required argument, no pair of arguments passed in exchanged positions', floor=1)
    for m in modules:
        for f in repo.functions_view(m):
            for c in paths.calls_in(f.node):
                g, problems = judge(repo, f, c)
                if g is None:
                    continue
                res.inst({'caller': f.fq, 'callee': g.fq, 'call': src(c)[:50], 'agrees': not problems}, (f.fq, g.fq, src(c)[:80]))
                for pr in problems:
                    res.add(Finding(rid, f, '`%s` %s' % (src(c)[:60], pr), node=c, construct='callsig|%s|%s' % (g.qual, norm_construct(c, f.node))))
    return res
