"""E4-LT - component-layout typing of the last tensor dimension of LieTensor data.

The layout table is *extracted* from the repository: sizes from the LieType.__init__(dimension, embedding,
manifold) calls of the eight type classes, slot positions from the rotation/translation/scale accessors.
A vector value is a list of atoms (role, size); roles: t tau phi v w s sigma (specific) and g (generic: the result
of arithmetic, fits any role).  Slices must fall on atom boundaries (generic atoms may be cut anywhere).
"""
from __future__ import annotations
import ast, re
from .core import AnalysisError, dotted, src
from .expr import inline_straight, returns_of, dump
from . import paths

LT = 'pypose.lietensor.lietensor'
OP = 'pypose.lietensor.operation'
GROUPS = ['SO3', 'SE3', 'RxSO3', 'Sim3']
ALG = {'SO3': 'so3', 'SE3': 'se3', 'RxSO3': 'rxso3', 'Sim3': 'sim3'}
ALG_ROLE = {'t': 'tau', 'q': 'phi', 's': 'sigma'}


# ---------------------------------------------------------------- table extraction

def _slice_bounds(fnode):
    """(lo, hi) of the constant last-dimension slice `[..., lo:hi]` returned by an accessor, or 'whole', or None"""
    rets = returns_of(fnode)
    if len(rets) != 1 or rets[0].value is None:
        return None
    v = inline_straight(fnode, upto=rets[0]).value(rets[0].value)
    for n in ast.walk(v):
        if isinstance(n, ast.Subscript) and isinstance(n.slice, ast.Tuple) and len(n.slice.elts) == 2 \
                and isinstance(n.slice.elts[0], ast.Constant) and n.slice.elts[0].value is Ellipsis and isinstance(n.slice.elts[1], ast.Slice):
            s = n.slice.elts[1]
            lo = s.lower.value if isinstance(s.lower, ast.Constant) else (0 if s.lower is None else None)
            hi = s.upper.value if isinstance(s.upper, ast.Constant) else None
            return (lo, hi)
    if isinstance(v, ast.Name):
        return 'whole'
    return None


def extract_table(repo):
    """-> {'SO3': {'dim':4,'manifold':3,'slots':[('q',0,4)]}, ..., 'so3': {...}}  from the current source"""
    table = {}
    for G in GROUPS:
        for name, is_alg in ((G, False), (ALG[G], True)):
            ci = repo.cls(LT, name + 'Type')
            init = ci.methods.get('__init__')
            dims = None
            if init is not None:
                for c in paths.calls_in(init.node):
                    if isinstance(c.func, ast.Attribute) and c.func.attr == '__init__' and len(c.args) == 3 and \
                            all(isinstance(a, ast.Constant) and isinstance(a.value, int) for a in c.args):
                        dims = tuple(a.value for a in c.args)
            if dims is None:
                raise AnalysisError('layout table: %sType.__init__ no longer passes literal (dimension, embedding, manifold)' % name)
            table[name] = {'dim': dims[0], 'embedding': dims[1], 'manifold': dims[2], 'algebra': is_alg}
    for G in GROUPS:
        ci = repo.cls(LT, G + 'Type')
        slots = []
        for acc, role in (('translation', 't'), ('rotation', 'q'), ('scale', 's')):
            f = ci.methods.get(acc)
            if f is None:
                continue
            b = _slice_bounds(f.node)
            if b == 'whole':
                slots.append((role, 0, table[G]['dim']))
            elif b is None or b[0] is None or b[1] is None:
                raise AnalysisError('layout table: cannot read the slice of %sType.%s' % (G, acc))
            else:
                slots.append((role, b[0], b[1]))
        slots.sort(key=lambda x: x[1])
        pos = 0
        for role, lo, hi in slots:
            if lo != pos:
                raise AnalysisError('layout table: accessor slots of %sType do not tile [0,%d): %s' % (G, table[G]['dim'], slots))
            pos = hi
        if pos != table[G]['dim']:
            raise AnalysisError('layout table: accessor slots of %sType cover %d of %d entries: %s' % (G, pos, table[G]['dim'], slots))
        table[G]['slots'] = slots
        # algebra twin: same slot order, q(4) -> phi(3)
        a = ALG[G]
        aslots, pos = [], 0
        for role, lo, hi in slots:
            n = 3 if role == 'q' else hi - lo
            aslots.append((ALG_ROLE[role], pos, pos + n))
            pos += n
        if pos != table[a]['dim'] or table[a]['dim'] != table[G]['manifold']:
            raise AnalysisError('layout table: algebra %s has dimension %d, derived layout has %d (manifold %d)'
                                % (a, table[a]['dim'], pos, table[G]['manifold']))
        table[a]['slots'] = aslots
    return table


def atoms_of(table, name):
    out = []
    for role, lo, hi in table[name]['slots']:
        if role == 'q':
            out += [('v', 3), ('w', 1)]
        else:
            out.append((role, hi - lo))
    return out


# ---------------------------------------------------------------- values

class Vec:
    def __init__(self, atoms, form='vec'):
        self.atoms, self.form = [a for a in atoms if a[1] > 0], form      # form: vec | col | row

    @property
    def size(self):
        return sum(a[1] for a in self.atoms)

    def generic(self):
        return Vec([('g', self.size)], self.form)

    def __repr__(self):
        return '%s[%s]' % (self.form, ' '.join('%s%d' % a for a in self.atoms))


class Mat:
    def __init__(self, r, c):
        self.r, self.c = r, c

    def __repr__(self):
        return 'mat(%sx%s)' % (self.r, self.c)


class Scal:
    def __repr__(self):
        return 'scalar'


TOPV = None


def cut(vec, lo, hi):
    """atoms of vec[lo:hi]; returns (atoms, problem-or-None)"""
    out, pos, problem = [], 0, None
    for role, n in vec.atoms:
        a, b = max(lo, pos), min(hi, pos + n)
        if a < b:
            if (a, b) == (pos, pos + n):
                out.append((role, n))
            elif role == 'g':
                out.append(('g', b - a))
            else:
                problem = 'slice %d:%d cuts through component %s[%d:%d]' % (lo, hi, role, pos, pos + n)
                out.append(('g', b - a))
        pos += n
    return out, problem


def mismatch(given, want):
    """None if `given` fits `want`; generic atoms fit anything of the same extent"""
    if given.size != want.size:
        return 'has %d entries %s, expected %d %s' % (given.size, given, want.size, want)
    # expand to per-entry roles
    def expand(v):
        out = []
        for role, n in v.atoms:
            out += [(role, i, n) for i in range(n)]
        return out
    for (r1, i1, n1), (r2, i2, n2) in zip(expand(given), expand(want)):
        if r1 == 'g' or r2 == 'g':
            continue
        if r1 != r2 or i1 != i2:
            return 'carries component %s where %s is expected (%s vs %s)' % (r1, r2, given, want)
    return None


# ---------------------------------------------------------------- signatures

def signatures(table):
    """callee name -> (list of expected argument layouts (Vec | None), result (Vec | Mat))"""
    S = {}
    def V(name):
        return Vec(atoms_of(table, name))
    r3 = Vec([('g', 3)])
    r4 = Vec([('g', 3), ('g', 1)])
    for G in GROUPS:
        g = ALG[G]
        n = table[G]['manifold']
        S['%s_Log.apply' % G] = ([V(G)], V(g))
        S['%s_Exp.apply' % g] = ([V(g)], V(G))
        S['%s_Mul.apply' % G] = ([V(G), V(G)], V(G))
        S['%s_Inv.apply' % G] = ([V(G)], V(G))
        S['%s_Act.apply' % G] = ([V(G), r3], r3)
        S['%s_Act4.apply' % G] = ([V(G), r4], r4)
        S['%s_AdjXa.apply' % G] = ([V(G), V(g)], V(g).generic())
        S['%s_AdjTXa.apply' % G] = ([V(G), V(g)], V(g).generic())
        S['%s_Adj' % G] = ([V(G)], Mat(n, n))
        S['%s_adj' % g] = ([V(g)], Mat(n, n))
        S['%s_Jl' % g] = ([V(g)], Mat(n, n))
        S['%s_Jl_inv' % g] = ([V(g)], Mat(n, n))
        S['%s_Matrix4x4' % G] = ([V(G)], Mat(4, 4))
        S['%s_Act_Jacobian' % G] = ([r3], Mat(3, n))
        S['%s_Act4_Jacobian' % G] = ([r4], Mat(4, n))
    S['SO3_Matrix'] = ([V('SO3')], Mat(3, 3))
    S['RxSO3_Matrix'] = ([V('RxSO3')], Mat(3, 3))
    S['RxSO3_Rotation'] = ([V('RxSO3')], Mat(3, 3))
    S['SE3_Matrix'] = ([V('SE3')], Mat(4, 4))
    S['Sim3_Matrix'] = ([V('Sim3')], Mat(4, 4))
    S['calcQ'] = ([V('se3')], Mat(3, 3))
    S['rxso3_Ws'] = ([V('rxso3')], Mat(3, 3))
    S['vec2skew'] = ([r3], Mat(3, 3))
    return S


# ---------------------------------------------------------------- typing

class Typer:
    def __init__(self, table, sigs, env):
        self.table, self.sigs, self.env = table, sigs, env     # env: param name -> value
        self.problems = []      # (node, message)
        self.unknown = 0
        self.calls_checked = 0

    def note(self, node, msg):
        self.problems.append((node, msg))

    def t(self, e):
        if isinstance(e, ast.Name):
            return self.env.get(e.id, TOPV)
        if isinstance(e, ast.Constant):
            return Scal() if isinstance(e.value, (int, float)) else TOPV
        if isinstance(e, ast.UnaryOp):
            return self.t(e.operand)
        if isinstance(e, ast.Subscript):
            return self.sub(e)
        if isinstance(e, ast.BinOp):
            return self.binop(e)
        if isinstance(e, ast.Call):
            return self.call(e)
        if isinstance(e, ast.Attribute):
            b = self.t(e.value)
            if e.attr in ('mT', 'T', 'mH') and isinstance(b, Mat):
                return Mat(b.c, b.r)
            return TOPV
        if isinstance(e, (ast.Tuple, ast.List)):
            return [self.t(x) for x in e.elts]
        return TOPV

    def sub(self, e):
        base = self.t(e.value)
        sl = e.slice
        if isinstance(base, Vec) and base.form == 'vec':
            item = None
            if isinstance(sl, ast.Tuple) and len(sl.elts) == 2 and isinstance(sl.elts[0], ast.Constant) and sl.elts[0].value is Ellipsis:
                item = sl.elts[1]
            if item is None:
                # mask gather / other indexing keeps the last dimension
                return base
            n = base.size
            if isinstance(item, ast.Slice):
                lo = _const(item.lower, 0)
                hi = _const(item.upper, n)
                if lo is None or hi is None or item.step is not None:
                    self.unknown += 1
                    return TOPV
                lo = lo + n if lo < 0 else lo
                hi = hi + n if hi < 0 else min(hi, n)
                atoms, problem = cut(base, lo, hi)
                if problem:
                    self.note(e, '`%s`: %s' % (src(e)[:50], problem))
                return Vec(atoms)
            k = _const(item, None)
            if k is not None:
                k = k + n if k < 0 else k
                atoms, problem = cut(base, k, k + 1)
                if problem:
                    self.note(e, '`%s`: %s' % (src(e)[:50], problem))
                return Vec(atoms, 'elem')
            if isinstance(item, ast.Constant) and item.value is None:
                return Vec(base.atoms, 'col')
            return TOPV
        if isinstance(base, Vec) and base.form == 'elem':
            return base
        if isinstance(base, Mat):
            # m[..., :3, :3] block
            if isinstance(sl, ast.Tuple) and len(sl.elts) == 3 and all(isinstance(x, ast.Slice) for x in sl.elts[1:]):
                r = _extent(sl.elts[1], base.r)
                c = _extent(sl.elts[2], base.c)
                if r is not None and c is not None:
                    return Mat(r, c)
            return TOPV
        return TOPV

    def binop(self, e):
        l, r = self.t(e.left), self.t(e.right)
        if isinstance(e.op, ast.MatMult):
            return self.mm(e, l, r)
        if isinstance(l, Scal) and isinstance(r, Scal):
            return Scal()
        for a, b in ((l, r), (r, l)):
            if isinstance(a, Vec) and (isinstance(b, Scal) or b is TOPV or (isinstance(b, Vec) and b.size == 1)):
                if isinstance(b, Vec) and b.form != a.form and b.form not in ('elem',) and a.form not in ('elem',):
                    return TOPV
                # scaling / shifting by a scalar or by a (..,1) column keeps the extent, loses the role
                return a.generic() if not (isinstance(e.op, ast.Mult) and isinstance(b, Scal) and False) else a
        if isinstance(l, Vec) and isinstance(r, Vec):
            if l.form == r.form:
                if l.size == r.size:
                    return l.generic()
                self.note(e, '`%s`: elementwise operation on vectors of %d and %d entries (%s, %s)' % (src(e)[:60], l.size, r.size, l, r))
                return TOPV
            return TOPV
        if isinstance(l, Mat) and isinstance(r, Mat):
            return l if (l.r, l.c) == (r.r, r.c) else TOPV
        if isinstance(l, Mat) or isinstance(r, Mat):
            m = l if isinstance(l, Mat) else r
            return m
        return TOPV

    def mm(self, e, l, r):
        if isinstance(l, Mat) and isinstance(r, Vec) and r.form == 'col':
            if l.c != r.size:
                self.note(e, '`%s`: %s applied to a column of %d entries (%s)' % (src(e)[:60], l, r.size, r))
                return TOPV
            return Vec([('g', l.r)], 'col')
        if isinstance(l, Vec) and l.form == 'row' and isinstance(r, Mat):
            if l.size != r.r:
                self.note(e, '`%s`: row of %d entries (%s) times %s' % (src(e)[:60], l.size, l, r))
                return TOPV
            return Vec([('g', r.c)], 'row')
        if isinstance(l, Mat) and isinstance(r, Mat):
            if l.c != r.r:
                self.note(e, '`%s`: %s times %s' % (src(e)[:60], l, r))
                return TOPV
            return Mat(l.r, r.c)
        return TOPV

    def call(self, e):
        d = dotted(e.func)
        if d is not None:
            key = d.split('.')[-1] if not d.endswith('.apply') else '.'.join(d.split('.')[-2:])
            if key in self.sigs:
                want, result = self.sigs[key]
                self.calls_checked += 1
                if len(e.args) != len(want):
                    self.note(e, '`%s` called with %d arguments, signature has %d' % (key, len(e.args), len(want)))
                for a, w in zip(e.args, want):
                    ta = self.t(a)
                    if isinstance(ta, Vec) and ta.form == 'vec':
                        mm = mismatch(ta, w)
                        if mm:
                            self.note(e, 'argument `%s` of %s %s' % (src(a)[:40], key, mm))
                    elif ta is TOPV:
                        self.unknown += 1
                return result if isinstance(result, Mat) else Vec(list(result.atoms))
            if d in ('torch.cat', 'torch.concat') and e.args and isinstance(e.args[0], (ast.Tuple, ast.List)):
                dimv = _const(e.args[1], None) if len(e.args) > 1 else _const(next((k.value for k in e.keywords if k.arg == 'dim'), None), 0)
                parts = [self.t(x) for x in e.args[0].elts]
                if dimv == -1 and all(isinstance(p, Vec) and p.form == 'vec' for p in parts):
                    atoms = []
                    for p in parts:
                        atoms += p.atoms
                    return Vec(atoms)
                if all(isinstance(p, Mat) for p in parts) and dimv in (-1, -2):
                    if dimv == -1:
                        return Mat(parts[0].r, sum(p.c for p in parts))
                    return Mat(sum(p.r for p in parts), parts[0].c)
                self.unknown += 1
                return TOPV
            if d in ('torch.linalg.cross', 'torch.cross') and len(e.args) >= 2:
                a, b = self.t(e.args[0]), self.t(e.args[1])
                for x, n in ((a, e.args[0]), (b, e.args[1])):
                    if isinstance(x, Vec) and x.size != 3:
                        self.note(e, 'cross product operand `%s` has %d entries (%s)' % (src(n)[:40], x.size, x))
                return Vec([('g', 3)])
            if d in ('torch.exp', 'torch.log', 'torch.abs', 'torch.sqrt', 'torch.sin', 'torch.cos', 'torch.nan_to_num', 'torch.atan', 'pm',
                     'torch.sign', 'torch.tan') and e.args:
                a = self.t(e.args[0])
                return a.generic() if isinstance(a, Vec) else a
            if d in ('torch.norm', 'torch.linalg.norm') and e.args:
                a = self.t(e.args[0])
                keep = any(k.arg == 'keepdim' and isinstance(k.value, ast.Constant) and k.value.value is True for k in e.keywords)
                if isinstance(a, Vec):
                    return Vec([('g', 1)], 'vec' if keep else 'elem')
                return TOPV
            if d in ('torch.zeros_like', 'torch.ones_like') and e.args:
                a = self.t(e.args[0])
                return a.generic() if isinstance(a, Vec) else a
            if d in ('torch.matmul',) and len(e.args) == 2:
                return self.mm(e, self.t(e.args[0]), self.t(e.args[1]))
            if d == '$upd':
                return self.t(e.args[0])
            if d in ('torch.eye',) and e.args:
                n = _const(e.args[0], None)
                return Mat(n, n) if n is not None else TOPV
        if isinstance(e.func, ast.Attribute):
            m = e.func.attr
            b = self.t(e.func.value)
            if isinstance(b, Vec):
                if m == 'unsqueeze' and e.args:
                    ax = _const(e.args[0], None)
                    if b.form == 'vec' and ax in (-1, -2):
                        return Vec(b.atoms, 'col' if ax == -1 else 'row')
                    if b.form == 'elem' and ax == -1:
                        return Vec(b.atoms, 'vec')
                    if b.form == 'vec' and b.size == 1:
                        return b
                    return TOPV
                if m == 'squeeze':
                    if b.form in ('col', 'row'):
                        return Vec(b.atoms, 'vec')
                    return b
                if m in ('log', 'exp', 'abs', 'sqrt', 'sin', 'cos', 'clone', 'contiguous', 'reciprocal', 'square', 'pow', 'clamp'):
                    return b.generic() if m not in ('clone', 'contiguous') else b
                if m in ('sum', 'norm'):
                    keep = any(k.arg == 'keepdim' and isinstance(k.value, ast.Constant) and k.value.value is True for k in e.keywords)
                    return Vec([('g', 1)], 'vec' if keep else 'elem')
                if m in ('expand', 'repeat'):
                    return b
            if isinstance(b, Mat):
                if m in ('inverse', 'clone', 'contiguous', 'expand', 'repeat'):
                    return b
                if m == 'transpose':
                    return Mat(b.c, b.r)
                if m in ('unsqueeze', 'squeeze'):
                    return TOPV
        self.unknown += 1
        return TOPV


def _const(e, default):
    if e is None:
        return default
    if isinstance(e, ast.Constant) and isinstance(e.value, int) and not isinstance(e.value, bool):
        return e.value
    if isinstance(e, ast.UnaryOp) and isinstance(e.op, ast.USub) and isinstance(e.operand, ast.Constant) and isinstance(e.operand.value, int):
        return -e.operand.value
    return None


def _extent(sl, n):
    lo = _const(sl.lower, 0)
    hi = _const(sl.upper, n)
    if lo is None or hi is None:
        return None
    return len(range(n)[slice(lo, hi)])


def type_forward(repo, table, sigs, cname, param_layouts, want):
    """type the single return of <cname>.forward with parameters bound to layouts; -> (Typer, returned value, want-mismatch)"""
    f = repo.func(OP, cname + '.forward')
    pp = f.pos_params
    if len(pp) != len(param_layouts):
        raise AnalysisError('%s.forward has parameters %s, expected %d' % (cname, pp, len(param_layouts)))
    rets = returns_of(f.node)
    if len(rets) != 1:
        raise AnalysisError('%s.forward has %d return statements' % (cname, len(rets)))
    val = inline_straight(f.node, upto=rets[0]).value(rets[0].value)
    ty = Typer(table, sigs, dict(zip(pp, param_layouts)))
    out = ty.t(val)
    mm = None
    if isinstance(out, Vec) and out.form == 'vec':
        mm = mismatch(out, want)
    elif out is TOPV:
        ty.unknown += 1
    else:
        mm = 'is %s, expected a vector %s' % (out, want)
    return f, ty, out, mm, rets[0]
