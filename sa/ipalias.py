"""IPA rule: the result of an in-place tensor method is not bound to a second name while the first one is still read.

`se = g1.sqrt_()` looks like `se = g1.sqrt()` with one allocation saved, but `se` and `g1` are then ONE tensor: every later read of `g1` sees the
square roots.  The hazard is structural - two live names for one storage after an in-place update - and independent of the values.  Deliberate
in-place updates are written as statements (`x.add_(1)`), as re-bindings of the same name (`x = x.clamp_(0)`) or as returned values; those are not
matched.  Expected count on the tree: zero; a positive and a negative fixture run on every invocation.
"""
import ast
from .core import RuleResult, Finding, AnalysisError, src, norm_construct, guarded, dotted

VIEW_METHODS = {'view', 'reshape', 'squeeze', 'unsqueeze', 'detach', 'transpose', 'permute', 'expand', 'flatten', 'contiguous', 'T', 'mT', 'real'}


def _root_of_inplace(e):
    """(root name, in-place method) if the value of e is the storage of a Name updated in place somewhere along its method chain"""
    inplace = None
    while True:
        if isinstance(e, ast.Call) and isinstance(e.func, ast.Attribute):
            m = e.func.attr
            if m.endswith('_') and not m.startswith('_') and not m.endswith('__'):
                inplace = inplace or m
            elif m not in VIEW_METHODS:
                return None
            e = e.func.value
        elif isinstance(e, ast.Attribute) and e.attr in VIEW_METHODS:
            e = e.value
        elif isinstance(e, ast.Subscript):
            e = e.value
        else:
            break
    if isinstance(e, ast.Name) and inplace:
        return e.id, inplace
    return None


def _reachable_after(fnode, st):
    """statements that can execute after `st`: the rest of its block, the rest of every enclosing block, and the whole body of an enclosing loop (not the
    sibling branches of an enclosing if / try)"""
    path = []

    def find(body_owner, stmts, trail):
        for i, s_ in enumerate(stmts):
            if s_ is st:
                path.extend(trail + [(body_owner, stmts, i)])
                return True
            for fld in ('body', 'orelse', 'finalbody', 'handlers'):
                sub = getattr(s_, fld, None)
                if isinstance(sub, list) and sub:
                    subs = sub if fld != 'handlers' else [x for h in sub for x in h.body]
                    if subs and isinstance(subs[0], ast.stmt) and find(s_, subs, trail + [(body_owner, stmts, i)]):
                        return True
        return False
    find(fnode, fnode.body, [])
    out = []
    for owner, stmts, i in path:
        out.extend(stmts[i + 1:])
        if isinstance(owner, (ast.For, ast.While)):
            out.extend(owner.body)
    return out


def alias_hazards(fnode):
    out = []
    stmts = [n for n in ast.walk(fnode) if isinstance(n, ast.stmt)]
    for st in stmts:
        if not isinstance(st, ast.Assign):
            continue
        r = _root_of_inplace(st.value)
        if r is None:
            # function form of an in-place operation: cumprod_(w, ...) / torch.add_(w, ...) - the first argument is updated and returned
            v = st.value
            if isinstance(v, ast.Call) and v.args and isinstance(v.args[0], ast.Name):
                fn = v.func.id if isinstance(v.func, ast.Name) else (v.func.attr if isinstance(v.func, ast.Attribute) else '')
                if fn.endswith('_') and not fn.endswith('__') and not fn.startswith('_'):
                    r = (v.args[0].id, fn)
        if r is None:
            # torch.op(x, out=x) bound to another name
            v = st.value
            if isinstance(v, ast.Call):
                outs = [k.value for k in v.keywords if k.arg == 'out' and isinstance(k.value, ast.Name)]
                if outs:
                    r = (outs[0].id, 'out=')
        if r is None:
            continue
        root, meth = r
        targets = {t.id for t in st.targets if isinstance(t, ast.Name)}
        if not targets or root in targets:
            continue
        region = _reachable_after(fnode, st)
        later = [n for r_ in region for n in ast.walk(r_) if isinstance(n, ast.Name) and n.id == root and isinstance(n.ctx, ast.Load)]
        rebound = [n for r_ in region for n in ast.walk(r_) if isinstance(n, ast.Name) and n.id == root and isinstance(n.ctx, ast.Store)]
        later.sort(key=lambda n: (n.lineno, n.col_offset))
        if later and not (rebound and min(x.lineno for x in rebound) <= later[0].lineno):
            out.append((st, root, meth, sorted(targets)[0], later[0]))
    return out


@guarded
def rule_ipalias(repo, rid, modules):
    res = RuleResult(rid, 'no in-place method result (`y.op_()`, `torch.op(.., out=y)`) is bound to a second name while `y` is read again later in the function: '
                     'the two names are one storage, the later read sees the updated values', floor=1)
    n = 0
    for m in modules:
        for f in repo.functions_view(m):
            n += 1
            hz = alias_hazards(f.node)
            res.inst({'function': f.fq, 'aliased in-place results': [src(st)[:50] for st, *_ in hz]}, f.fq if hz else None)
            for st, root, meth, tgt, later in hz:
                res.add(Finding(rid, f, '`%s` updates `%s` in place (%s) and binds the SAME storage to `%s`; `%s` is read again at line %d and now holds the updated values'
                                % (src(st)[:60], root, meth, tgt, root, later.lineno), node=st, construct='in-place alias|' + norm_construct(st, f.node)))
    if n == 0:
        raise AnalysisError('%s: no function analysed' % rid)
    res.inst({'functions analysed': n}, rid)
    fx = ast.parse('def f(g, x):\n    s = g.sqrt_()\n    a = 1 - (1 + 2 * x / g).sqrt()\n    return s, a\n'
                   'def h(g, x):\n    g = g.clamp_(0)\n    s = g.sqrt()\n    x.add_(1)\n    return s * g\n').body
    if len(alias_hazards(fx[0])) != 1 or alias_hazards(fx[1]):
        raise AnalysisError('%s: fixtures no longer classified' % rid)
    return res


# ------------------------------------------------------------------------------------------------ in-place update of an advanced-indexing copy
def lost_updates(fnode):
    """[(stmt, subscript)]: `x[M].op_(..)` as a statement where M is a boolean mask / index TENSOR: advanced indexing returns a copy, the in-place operation
    changes that temporary and x keeps its old values (basic indexing - ints, slices, ... - returns a view and is fine)"""
    masks = set()
    for n in ast.walk(fnode):
        if isinstance(n, ast.Assign) and len(n.targets) == 1 and isinstance(n.targets[0], ast.Name):
            v = n.value
            core = v
            while isinstance(core, ast.Call) and isinstance(core.func, ast.Attribute) and core.func.attr in ('squeeze', 'unsqueeze', 'view', 'reshape', 'clone', 'bool', 'flatten', 'expand_as'):
                core = core.func.value
            if isinstance(core, (ast.Compare,)) or (isinstance(core, ast.UnaryOp) and isinstance(core.op, ast.Invert)) or \
                    (isinstance(core, ast.BinOp) and isinstance(core.op, (ast.BitAnd, ast.BitOr, ast.BitXor))) or \
                    (isinstance(core, ast.Call) and (dotted(core.func) or (core.func.attr if isinstance(core.func, ast.Attribute) else '')).split('.')[-1] in
                     ('nonzero', 'where', 'arange', 'tensor', 'argsort', 'topk', 'randperm', 'isnan', 'isfinite', 'isclose', 'logical_and', 'logical_or', 'logical_not', 'gt', 'lt', 'ge', 'le', 'eq', 'ne')):
                masks.add(n.targets[0].id)
    out = []
    for n in ast.walk(fnode):
        if not (isinstance(n, ast.Expr) and isinstance(n.value, ast.Call) and isinstance(n.value.func, ast.Attribute)):
            continue
        c = n.value
        # innermost receiver of a chain of in-place calls
        recv = c.func.value
        name = c.func.attr
        while isinstance(recv, ast.Call) and isinstance(recv.func, ast.Attribute) and recv.func.attr.endswith('_') and not recv.func.attr.endswith('__'):
            name = recv.func.attr
            recv = recv.func.value
        if not (name.endswith('_') and not name.endswith('__')):
            continue
        if not isinstance(recv, ast.Subscript):
            continue
        idx = recv.slice.elts if isinstance(recv.slice, ast.Tuple) else [recv.slice]
        adv = [x for x in idx if (isinstance(x, ast.Name) and x.id in masks) or isinstance(x, (ast.Compare, ast.List)) or
               (isinstance(x, ast.UnaryOp) and isinstance(x.op, ast.Invert)) or (isinstance(x, ast.BinOp) and isinstance(x.op, (ast.BitAnd, ast.BitOr)))]
        if adv:
            out.append((n, recv))
    return out


@guarded
def rule_lostupdate(repo, rid, modules):
    res = RuleResult(rid, 'no statement applies an in-place method to the result of boolean-mask / index-tensor indexing (`x[M].op_(..)`): that result is a copy, the '
                     'update never reaches x (write `x[M] = x[M] op ..` or index_put_ / masked ops)', floor=1)
    n = 0
    for m in modules:
        for f in repo.functions_view(m):
            n += 1
            for st, sub in lost_updates(f.node):
                res.inst({'function': f.fq, 'statement': src(st)[:70]}, (f.fq, src(st)[:70]))
                res.add(Finding(rid, f, '`%s`: `%s` is advanced indexing and returns a COPY; the in-place operation modifies the temporary and `%s` keeps its old values - '
                                'the correction is silently dropped' % (src(st)[:70], src(sub)[:30], src(sub.value)[:20]), node=st, construct='in-place on an indexing copy|' + src(sub.value)[:20]))
    res.inst({'functions scanned': n}, 'scan')
    fx = ast.parse('def f(x, a):\n    M = a > 0\n    x[M].sub_(1)\n    x[..., :3].add_(1)\n    x[M] = x[M] - 1\n    return x\n').body[0]
    if len(lost_updates(fx)) != 1:
        raise AnalysisError('%s: fixtures no longer classified' % rid)
    return res


# ------------------------------------------------------------------------------------------------ tensor objects re-pointed / cut from their graph in place
STORAGE_MUTATORS = {'detach_', 'set_', 'resize_', 'resize_as_', 'as_strided_', 'share_memory_', 'rename_', 'squeeze_', 'unsqueeze_', 'transpose_', 't_', 'swapaxes_', 'swapdims_'}


def storage_mutations(fnode):
    """[(node, what)]: `x.data = ..` (the tensor object is re-pointed to other storage: every view it was taken from / handed out stops sharing memory with it),
    `x.set_ / resize_`; `x.detach_()` / `x.unsqueeze_()` ... when x is (an alias of) a parameter - the caller's object loses its graph / changes its shape - or,
    for detach_, when x is read again later in the function (the graph is cut before it was used: `g1.detach_()` ahead of `grad(g1.sum(), x)`).  A detach_ of a
    local in the return statement, after its last use, changes nothing anybody else holds."""
    a = fnode.args
    params = {x.arg for x in a.posonlyargs + a.args + a.kwonlyargs} | ({a.vararg.arg} if a.vararg else set())
    alias = set(params) - {'self', 'cls'}
    changed = True
    while changed:
        changed = False
        for n in ast.walk(fnode):
            if isinstance(n, ast.Assign):
                pairs = []
                for t in n.targets:
                    if isinstance(t, ast.Tuple) and isinstance(n.value, ast.Tuple) and len(t.elts) == len(n.value.elts):
                        pairs += list(zip(t.elts, n.value.elts))
                    else:
                        pairs.append((t, n.value))
                for t, v in pairs:
                    if isinstance(t, ast.Name) and t.id not in alias and isinstance(v, ast.Name) and v.id in alias:
                        alias.add(t.id)
                        changed = True
    out = []
    stack = list(fnode.body)
    while stack:
        n = stack.pop()
        if isinstance(n, (ast.FunctionDef, ast.AsyncFunctionDef, ast.ClassDef)):
            continue
        if isinstance(n, ast.Attribute) and n.attr == 'data' and isinstance(n.ctx, ast.Store):
            out.append((n, 'assigns `.data`: the tensor object is re-pointed to fresh storage, the tensor it is a view of (and every other view) no longer sees its updates'))
        elif isinstance(n, ast.Call) and isinstance(n.func, ast.Attribute) and n.func.attr in STORAGE_MUTATORS:
            recv = n.func.value
            root = recv
            while isinstance(root, (ast.Attribute, ast.Subscript)):
                root = root.value
            rname = root.id if isinstance(root, ast.Name) else None
            on_param = rname in alias
            later = False
            if n.func.attr == 'detach_' and isinstance(recv, ast.Name):
                later = any(isinstance(x, ast.Name) and x.id == recv.id and isinstance(x.ctx, ast.Load) and x.lineno > n.lineno for x in ast.walk(fnode))
            if n.func.attr in ('set_', 'resize_', 'resize_as_', 'as_strided_') or on_param or later:
                what = ('cuts the autograd graph of `%s` %s' % (src(recv)[:20], 'before its later use in this function' if later and not on_param else 'for the caller')) \
                    if n.func.attr == 'detach_' else 'changes the shape / storage of the tensor OBJECT `%s` in place: the caller (and every alias) sees another tensor after the call' % src(recv)[:20]
                out.append((n, '`.%s()` %s' % (n.func.attr, what)))
        stack.extend(ast.iter_child_nodes(n))
    return out


@guarded
def rule_storage(repo, rid, modules):
    res = RuleResult(rid, 'no function re-points a tensor object (`x.data = ..`, set_, resize_), reshapes it in place (unsqueeze_, squeeze_, transpose_) or cuts its graph '
                     '(detach_): "making it contiguous", "normalising the rank" or "keeping a copy for inspection" this way changes the object the caller holds', floor=1)
    n = 0
    for m in modules:
        for f in repo.functions_view(m):
            n += 1
            for node, what in storage_mutations(f.node):
                res.inst({'function': f.fq, 'site': src(node)[:50]}, (f.fq, src(node)[:50]))
                res.add(Finding(rid, f, '`%s` %s' % (src(node)[:50], what), node=node, construct='tensor object mutated|' + src(node)[:30]))
    res.inst({'functions scanned': n}, 'scan')
    fx = ast.parse('def f(v, g):\n    if not v.is_contiguous():\n        v.data = v.data.contiguous()\n    c = g.detach_()\n    w = v.detach().clone()\n    y = h(w)\n    k = y.detach_()\n    z = y.sum()\n    return v, c, w, z.detach_()\n').body[0]
    if len(storage_mutations(fx)) != 3:
        raise AnalysisError('%s: fixtures no longer classified' % rid)
    return res
