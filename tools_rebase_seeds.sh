#!/bin/sh
# Re-create stored seed patches whose context no longer matches /repo HEAD (after a fix: commit), with git apply --3way in a scratch worktree.
# usage: tools_rebase_seeds.sh ; prints the seeds it rewrote.  Never touches /repo's working tree.
set -e
HEAD=$(git -C /repo rev-parse --short HEAD)
for d in /verif/seeded/C*-*; do
  s=$(basename $d)
  if git -C /repo apply --check $d/patch.diff 2>/dev/null; then continue; fi
  wt=$(mktemp -d /tmp/rebase-XXXXXX); rmdir $wt
  git -C /repo worktree add --detach $wt HEAD -q
  if (cd $wt && git apply --3way $d/patch.diff >/dev/null 2>&1 && ! grep -rq '^<<<<<<< ' pypose); then
    (cd $wt && git diff HEAD > $d/patch.diff)
    /venv/bin/python - "$d" "$HEAD" <<'PY'
import json, sys
p = sys.argv[1] + '/meta.json'
d = json.load(open(p))
d['rebased'] = 'patch re-created with git apply --3way on /repo HEAD %s after a fix commit changed its context lines; same edit' % sys.argv[2]
json.dump(d, open(p, 'w'), indent=1)
PY
    echo "rebased $s"
  else
    echo "CONFLICT $s (left as is)"
  fi
  git -C /repo worktree remove --force $wt
done
