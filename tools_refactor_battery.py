#!/venv/bin/python
"""False-alarm battery over all properties (the per-property version runs inside every thorough check): see sa/battery.py"""
import sys, os
sys.path.insert(0, os.path.dirname(os.path.abspath(__file__)))
from sa import battery
sys.exit(battery.main())
